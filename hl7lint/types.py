"""E4 type inference + call resolution (class-hierarchy analysis).

Flow-insensitive abstract types per (function, variable), per instance
attribute (keyed by the root class of the hierarchy that owns it) and per
container (with constant keys/indices kept apart), propagated through resolved
calls and returns to a fixpoint.  Tags:
  C:<cls>  instance of hl7apy class <cls> or a subclass     K:<cls>  the class object
  F:<fn>   function object                                 M:<mod>  module (M:lib = any version package)
  list dict tuple set str int bool none ext (foreign object)   ?  unknown
"""
import ast

from .report import AnalysisError
from .src import own_nodes, norm

BUILTIN_FUNCS = {'len', 'isinstance', 'issubclass', 'hasattr', 'int', 'str', 'repr', 'bool', 'float', 'iter',
                 'next', 'enumerate', 'zip', 'range', 'xrange', 'reversed', 'sorted', 'list', 'tuple', 'dict',
                 'set', 'frozenset', 'min', 'max', 'sum', 'any', 'all', 'print', 'open', 'type', 'id', 'map',
                 'filter', 'super', 'getattr', 'setattr', 'delattr', 'property', 'staticmethod', 'object',
                 'basestring', 'bytes', 'Exception', 'ValueError', 'KeyError', 'IndexError', 'TypeError',
                 'AttributeError', 'NotImplementedError', 'AssertionError', 'NameError', 'ImportError',
                 'compile', 'abs', 'divmod', 'chr', 'ord', 'format', 'callable', 'vars', 'dir'}
LIST_RET = {'list', 'sorted', 'reversed', 'range', 'xrange', 'enumerate', 'zip', 'map', 'filter', 'iteritems'}
CONTAINER_TAGS = {'list', 'dict', 'tuple', 'set'}
PLAIN = {'list', 'dict', 'tuple', 'set', 'str', 'int', 'bool', 'ext'}
# builtin container methods that mutate their receiver
MUTATORS = {'append', 'insert', 'remove', 'pop', 'extend', 'clear', 'update', 'setdefault', 'sort', 'reverse',
            'add', 'discard', 'popitem'}
STR_METHODS = {'split', 'rsplit', 'strip', 'lstrip', 'rstrip', 'upper', 'lower', 'format', 'join', 'replace',
               'startswith', 'endswith', 'find', 'encode', 'decode', 'isdigit', 'splitlines', 'partition',
               'rpartition', 'title', 'zfill', 'count'}
STR_TO_LIST = {'split', 'rsplit', 'splitlines', 'partition', 'rpartition'}
READ_METHODS = {'get', 'index', 'copy', 'items', 'keys', 'values', 'count'}


class Target(object):
    """One possible callee of a call site."""
    __slots__ = ('kind', 'func', 'name', 'bound', 'ctor', 'via')

    def __init__(self, kind, func=None, name=None, bound=False, ctor=None, via=''):
        self.kind = kind      # 'func' | 'builtin' | 'ext' | 'unknown'
        self.func = func      # FuncInfo for kind == 'func'
        self.name = name
        self.bound = bound    # first parameter (self) is supplied implicitly
        self.ctor = ctor      # ClassInfo when the call constructs an instance
        self.via = via        # how it was resolved (cha, super, fallback, ctor, ...)

    def label(self):
        return self.func.qualname if self.func else '%s:%s' % (self.kind, self.name)

    def __repr__(self):
        return '<%s%s>' % (self.label(), ' via ' + self.via if self.via else '')


def split_call(e):
    return isinstance(e, ast.Call) and isinstance(e.func, ast.Attribute) and e.func.attr in STR_TO_LIST


class TypeEngine(object):
    MAX_ROUNDS = 30

    def __init__(self, index, base_datatypes=None):
        self.index = index
        self.var = {}        # (fq, name) -> set
        self.ret = {}        # fq -> set
        self.iattr = {}      # (root class qualname | '?', attr) -> set
        self.contents = {}   # key -> {sub: set}
        self.modvar = {}     # (mod, name) -> set
        self.ret_items = {}  # (fq, i) -> set : types of position i of a returned tuple literal
        self.changed = False
        self.base_datatypes = base_datatypes or {}
        self._subs = {}
        self._fn_of_node = {}
        self._cur_mod = None
        self._rcache = {}
        self._epoch = 0
        self.funcs = [f for f in index.all_functions()]
        for f in self.funcs:
            for n in own_nodes(f.node):
                self._fn_of_node[id(n)] = f
        self._psetters = {}
        self._pgetters = {}
        for ci in index.classes.values():
            for pn, (g, st) in ci.properties.items():
                if st is not None and st not in self._psetters.setdefault(pn, []):
                    self._psetters[pn].append(st)
                if g is not None and g not in self._pgetters.setdefault(pn, []):
                    self._pgetters[pn].append(g)
        self._seed()
        self._solve()

    # ------------------------------------------------------------------ util
    def subs(self, ci):
        r = self._subs.get(ci.qualname)
        if r is None:
            r = self._subs[ci.qualname] = self.index.subclasses(ci)
        return r

    @staticmethod
    def root_of(ci):
        return ci.mro[-1].qualname

    def _add(self, table, key, tags):
        if not tags:
            return
        cur = table.get(key)
        if cur is None:
            table[key] = set(tags)
            self.changed = True
        elif not tags <= cur:
            cur |= tags
            self.changed = True

    def c_add(self, key, sub, tags):
        if not tags or key is None:
            return
        d = self.contents.get(key)
        if d is None:
            d = self.contents[key] = {}
        cur = d.get(sub)
        if cur is None:
            d[sub] = set(tags)
            self.changed = True
        elif not tags <= cur:
            cur |= tags
            self.changed = True

    def c_get(self, key, sub=None):
        d = self.contents.get(key)
        if not d:
            return set()
        out = set()
        if sub is None:
            for v in d.values():
                out |= v
        else:
            out |= d.get(sub, set())
            out |= d.get('*', set())
        return out

    def c_merge(self, dst, src):
        if dst is None or src is None or dst == src:
            return
        d = self.contents.get(src)
        if not d:
            return
        for sub, tags in list(d.items()):
            self.c_add(dst, sub, tags)

    def c_merge_element(self, dst, src):
        """dst names an *element* of container src: it inherits src's (flattened) contents only when src
        can hold nested containers at all"""
        d = self.contents.get(src)
        if not d:
            return
        if any(tags & CONTAINER_TAGS for tags in d.values()):
            self.c_merge(dst, src)

    @staticmethod
    def const_sub(node):
        if isinstance(node, ast.Constant) and isinstance(node.value, (str, int)) and not isinstance(node.value, bool):
            return node.value
        if isinstance(node, ast.UnaryOp) and isinstance(node.op, ast.USub) and isinstance(node.operand, ast.Constant) \
                and isinstance(node.operand.value, int):
            return -node.operand.value
        return None

    def fn_of(self, node):
        return self._fn_of_node.get(id(node))

    def property_setters(self, name):
        return self._psetters.get(name, [])

    def property_getters(self, name):
        return self._pgetters.get(name, [])

    def cls_attrs(self, ci):
        """names listed in the class constant cls_attrs (evaluated: list literal + Base.cls_attrs + [...])"""
        owner = None
        for c in ci.mro:
            if 'cls_attrs' in c.attrs:
                owner = c
                break
        if owner is None:
            return None
        return self._eval_strlist(owner.attrs['cls_attrs'], owner)

    def _eval_strlist(self, node, owner):
        if isinstance(node, (ast.List, ast.Tuple)):
            out = []
            for e in node.elts:
                if isinstance(e, ast.Constant) and isinstance(e.value, str):
                    out.append(e.value)
                else:
                    raise AnalysisError('cls_attrs of %s is not a literal list' % owner.qualname)
            return out
        if isinstance(node, ast.BinOp) and isinstance(node.op, ast.Add):
            return self._eval_strlist(node.left, owner) + self._eval_strlist(node.right, owner)
        if isinstance(node, ast.Attribute) and node.attr == 'cls_attrs' and isinstance(node.value, ast.Name):
            base = self.index.resolve_class_name(owner.module, node.value.id)
            if base is not None:
                return self.cls_attrs(base) or []
        raise AnalysisError('cannot evaluate cls_attrs of %s' % owner.qualname)

    # ------------------------------------------------------------------ seeds
    def _seed(self):
        ix = self.index
        for v, table in self.base_datatypes.items():
            self.contents[('mod', v, 'BASE_DATATYPES')] = {k: {'K:' + ci.qualname} for k, ci in table.items()}
            self.modvar[(v, 'BASE_DATATYPES')] = {'dict'}
        for v in ix.versions:
            self.modvar[(v, 'ELEMENTS')] = {'dict'}
            self.contents[('mod', v, 'ELEMENTS')] = {'*': {'tuple', 'list', 'dict'}}

    # ------------------------------------------------------------------ scopes
    def self_class(self, fn):
        f = fn
        while f is not None and f.cls is None:
            f = f.outer
        if f is not None and not f.is_static:
            return f.cls
        return None

    def var_owner(self, fn, name):
        """function (in the chain of enclosing functions) whose scope binds `name`, or None"""
        f = fn
        while f is not None:
            if (f.qualname, name) in self.var or name in f.params or name in f.kwonly or name in (f.vararg, f.kwarg):
                return f
            if name in f.nested:
                return None
            f = f.outer
        return None

    def lookup_name(self, fn, name):
        f = fn
        while f is not None:
            if (f.qualname, name) in self.var:
                return set(self.var[(f.qualname, name)]) or {'?'}
            if name in f.nested:
                return {'F:' + f.nested[name].qualname}
            if name in f.params or name in f.kwonly or name in (f.vararg, f.kwarg):
                return {'?'}
            f = f.outer
        mod = fn.module if fn is not None else self._cur_mod
        if mod is None:
            return {'?'}
        return self.lookup_module_name(mod, name)

    def lookup_module_name(self, mod, name, depth=0):
        ix = self.index
        if name in mod.functions:
            return {'F:' + mod.functions[name].qualname}
        if name in mod.classes:
            return {'K:' + mod.classes[name].qualname}
        imp = mod.imports.get(name)
        if imp is not None:
            m, orig = imp
            if orig is None:
                return {'M:' + m} if m in ix.modules else {'ext'}
            target = ix.modules.get(m)
            if target is None:
                return {'ext'}
            if depth < 4:
                return self.lookup_module_name(target, orig, depth + 1)
        if name in mod.assigns:
            return set(self.modvar.get((mod.name, name), set())) or {'?'}
        if name in BUILTIN_FUNCS:
            return {'ext'}
        return {'?'}

    # ------------------------------------------------------------------ attributes
    def attr_roots(self, recv_types, name):
        """root-class buckets in which attribute `name` of a receiver with these types lives"""
        roots = set()
        for tag in recv_types:
            if tag.startswith('C:'):
                ci = self.index.classes.get(tag[2:])
                if ci is not None:
                    roots.add(self.root_of(ci))
        if not roots:
            cands = {r for (r, n) in self.iattr if n == name and r != '?'}
            if len(cands) == 1:
                roots = cands
            else:
                roots = {'?'}
        return roots

    def attr_type(self, e, fn):
        rt = self.type_of(e.value, fn)
        name = e.attr
        out = set()
        for tag in rt:
            if tag.startswith('C:'):
                ci = self.index.classes.get(tag[2:])
                if ci is None:
                    continue
                found = False
                is_prop = False
                for s in self.subs(ci):
                    p = s.find_property(name)
                    if p is not None:
                        if p[0] is not None:
                            out |= self.ret.get(p[0].qualname, set())
                        found = True
                        is_prop = True
                        continue
                    m = s.find_method(name)
                    if m is not None:
                        out.add('F:' + m.qualname)
                        found = True
                if not is_prop:
                    root = self.root_of(ci)
                    for key in ((root, name), ('?', name)):
                        if key in self.iattr:
                            out |= self.iattr[key]
                            found = True
                    ca = ci.find_attr(name)
                    if ca is not None and not found:
                        out |= self.type_of(ca, None)
                        found = True
                if not found:
                    gas = [g for g in (s2.find_method('__getattr__') for s2 in self.subs(ci)) if g is not None]
                    if gas:
                        for g in gas:
                            out |= self.ret.get(g.qualname, set())
                    elif any(c.external_bases and c.external_bases != ['object'] for c in ci.mro):
                        out.add('ext')
                    else:
                        out.add('?')
            elif tag.startswith('M:'):
                m = tag[2:]
                if m == 'lib':
                    for v in self.index.versions:
                        out |= self.lookup_module_name(self.index.modules[v], name)
                elif m in self.index.modules:
                    out |= self.lookup_module_name(self.index.modules[m], name)
                else:
                    out.add('ext')
            elif tag.startswith('K:'):
                ci = self.index.classes.get(tag[2:])
                if ci is None:
                    out.add('ext')
                    continue
                m = ci.find_method(name)
                if m is not None:
                    out.add('F:' + m.qualname)
                elif ci.find_attr(name) is not None:
                    out |= self.type_of(ci.find_attr(name), None)
                elif name == '__name__':
                    out.add('str')
                else:
                    out.add('ext' if any(c.external_bases for c in ci.mro) else '?')
            elif tag == '?':
                hit = False
                for (r, n), ts in self.iattr.items():
                    if n == name:
                        out |= ts
                        hit = True
                for g in self.property_getters(name):
                    out |= self.ret.get(g.qualname, set())
                    hit = True
                if not hit:
                    out.add('?')
            elif tag == 'none':
                continue
            else:
                out.add('ext')
        return out or {'?'}

    # ------------------------------------------------------------------ containers
    def ckeys(self, expr, fn, depth=0):
        """container identities of an expression (nested containers are flattened)"""
        if depth > 6:
            return []
        if isinstance(expr, ast.Name):
            if expr.id == 'self':
                return []
            owner = self.var_owner(fn, expr.id)
            if owner is not None:
                return [('var', owner.qualname, expr.id)]
            mod = fn.module if fn is not None else self._cur_mod
            if mod is None:
                return []
            imp = mod.imports.get(expr.id)
            if imp and imp[1] and imp[0] in self.index.modules:
                return [('mod', imp[0], imp[1])]
            if expr.id in mod.assigns:
                return [('mod', mod.name, expr.id)]
            return []
        if isinstance(expr, ast.Attribute):
            t = self.type_of(expr.value, fn)
            out = []
            for tag in t:
                if tag.startswith('M:'):
                    mods = self.index.versions if tag == 'M:lib' else [tag[2:]]
                    out.extend(('mod', m, expr.attr) for m in mods)
                elif tag.startswith('K:'):
                    out.append(('clsattr', tag[2:], expr.attr))
            if out:
                return out
            for tag in t:
                if tag.startswith('C:'):
                    ci = self.index.classes.get(tag[2:])
                    if ci is None:
                        continue
                    for s in self.subs(ci):
                        if s.find_property(expr.attr) is None and s.find_attr(expr.attr) is not None:
                            owner = [c for c in s.mro if expr.attr in c.attrs][0]
                            k = ('clsattr', owner.qualname, expr.attr)
                            if k not in out:
                                out.append(k)
                        p = s.find_property(expr.attr)
                        if p is not None and p[0] is not None:
                            k = ('ret', p[0].qualname)
                            if k not in out:
                                out.append(k)
            for r in sorted(self.attr_roots(t, expr.attr)):
                out.append(('attr', r, expr.attr))
            return out
        if isinstance(expr, (ast.Subscript, ast.Starred)):
            return self.ckeys(expr.value, fn, depth + 1)
        if isinstance(expr, ast.BoolOp):
            out = []
            for v in expr.values:
                out.extend(self.ckeys(v, fn, depth + 1))
            return out
        if isinstance(expr, ast.IfExp):
            return self.ckeys(expr.body, fn, depth + 1) + self.ckeys(expr.orelse, fn, depth + 1)
        if isinstance(expr, ast.Call):
            f = expr.func
            out = []
            if isinstance(f, ast.Attribute) and f.attr in ('get', 'copy', 'values', 'items', 'keys', 'setdefault', 'pop'):
                rt = self.type_of(f.value, fn)
                if rt & CONTAINER_TAGS or rt <= {'?'}:
                    out = self.ckeys(f.value, fn, depth + 1)
                    if not any(t.startswith('C:') for t in rt):
                        return out
            if isinstance(f, ast.Name) and f.id in ('list', 'tuple', 'sorted', 'reversed', 'iter', 'iteritems',
                                                    'set', 'enumerate') and expr.args and self._is_builtin_name(fn, f.id):
                return self.ckeys(expr.args[0], fn, depth + 1)
            for t in self.resolve_call(expr, fn):
                if t.kind == 'func' and not t.ctor:
                    k = ('ret', t.func.qualname)
                    if k not in out:
                        out.append(k)
            return out
        return []

    def contents_of(self, expr, fn, sub=None):
        out = set()
        for k in self.ckeys(expr, fn):
            out |= self.c_get(k, sub)
        return out

    # ------------------------------------------------------------------ expression types
    def type_of(self, e, fn):
        if e is None:
            return {'none'}
        if isinstance(e, ast.Constant):
            v = e.value
            if v is None:
                return {'none'}
            if isinstance(v, bool):
                return {'bool'}
            if isinstance(v, (str, bytes)):
                return {'str'}
            if isinstance(v, (int, float)):
                return {'int'}
            return {'ext'}
        if isinstance(e, ast.JoinedStr):
            return {'str'}
        if isinstance(e, (ast.List, ast.ListComp, ast.GeneratorExp)):
            return {'list'}
        if isinstance(e, ast.Tuple):
            return {'tuple'}
        if isinstance(e, (ast.Dict, ast.DictComp)):
            return {'dict'}
        if isinstance(e, (ast.Set, ast.SetComp)):
            return {'set'}
        if isinstance(e, ast.Name):
            if e.id == 'self':
                k = self.self_class(fn)
                if k is not None:
                    return {'C:' + k.qualname}
            return self.narrow(e, self.lookup_name(fn, e.id), fn)
        if isinstance(e, ast.Attribute):
            return self.attr_type(e, fn)
        if isinstance(e, ast.Subscript):
            vt = self.type_of(e.value, fn)
            out = set()
            if isinstance(e.slice, ast.Slice):
                out |= (vt & {'list', 'tuple', 'str'})
                return out or {'?'}
            if 'str' in vt:
                out.add('str')
            if split_call(e.value):
                out.add('str')
            sub = self.const_sub(e.slice)
            if isinstance(e.value, ast.Call):
                sub = None    # list(d.values())[0], d.get(k)[0]: the key association is lost
            c = self.contents_of(e.value, fn, sub)
            if sub is None and c & CONTAINER_TAGS and c - CONTAINER_TAGS - {'none'} and 'dict' in vt:
                # homogeneous nesting (dict of lists of elements): the first subscript yields the inner containers,
                # a subscript of that yields the elements
                depth = 0
                v = e.value
                while isinstance(v, ast.Subscript):
                    depth += 1
                    v = v.value
                c = (c & CONTAINER_TAGS) if depth == 0 else (c - CONTAINER_TAGS)
            elif sub is None and isinstance(e.value, ast.Subscript) and c & CONTAINER_TAGS and c - CONTAINER_TAGS:
                inner = self.type_of(e.value, fn)
                if inner <= CONTAINER_TAGS | {'none'}:
                    c = c - CONTAINER_TAGS
            out |= c
            for tag in vt:   # an ElementList / ElementProxy subscript goes through __getitem__
                if tag.startswith('C:'):
                    ci = self.index.classes.get(tag[2:])
                    gi = ci.find_method('__getitem__') if ci else None
                    if gi is not None:
                        out |= self.ret.get(gi.qualname, set())
            return out or {'?'}
        if isinstance(e, ast.Call):
            return self.call_type(e, fn)
        if isinstance(e, ast.BoolOp):
            out = set()
            for v in e.values:
                out |= self.type_of(v, fn)
            return out
        if isinstance(e, ast.IfExp):
            return self.type_of(e.body, fn) | self.type_of(e.orelse, fn)
        if isinstance(e, ast.Compare):
            return {'bool'}
        if isinstance(e, ast.UnaryOp):
            return {'bool'} if isinstance(e.op, ast.Not) else {'int'}
        if isinstance(e, ast.BinOp):
            lt = self.type_of(e.left, fn)
            if isinstance(e.op, ast.Mod) and 'str' in lt:
                return {'str'}
            if isinstance(e.op, ast.Add):
                return ((lt | self.type_of(e.right, fn)) - {'?'}) or {'?'}
            if isinstance(e.op, ast.Mult):
                return ((lt | self.type_of(e.right, fn)) & {'list', 'str', 'int', 'tuple'}) or {'int'}
            if isinstance(e.op, ast.Sub) and 'set' in lt:
                return {'set'}
            return {'int'}
        if isinstance(e, ast.Lambda):
            return {'ext'}
        if isinstance(e, ast.Starred):
            return self.type_of(e.value, fn)
        return {'?'}

    def narrow(self, name_node, tags, fn):
        """restrict the types of a name by enclosing `if isinstance(name, K)` tests (true branch only)"""
        child = name_node
        p = getattr(name_node, '_parent', None)
        while p is not None and not isinstance(p, (ast.FunctionDef, ast.AsyncFunctionDef, ast.Lambda)):
            if isinstance(p, ast.If) and any(child is b for b in p.body):
                tests = p.test.values if isinstance(p.test, ast.BoolOp) and isinstance(p.test.op, ast.And) else [p.test]
                for t in tests:
                    if isinstance(t, ast.Call) and isinstance(t.func, ast.Name) and t.func.id == 'isinstance' \
                            and len(t.args) == 2 and isinstance(t.args[0], ast.Name) and t.args[0].id == name_node.id:
                        tags = self._narrow_to(tags, t.args[1], fn)
            child = p
            p = getattr(p, '_parent', None)
        return tags

    def _narrow_to(self, tags, clsexpr, fn):
        alts = clsexpr.elts if isinstance(clsexpr, ast.Tuple) else [clsexpr]
        out = set()
        for a in alts:
            if isinstance(a, ast.Name) and a.id in ('basestring', 'str', 'bytes', 'unicode'):
                out.add('str')
                continue
            kt = {t for t in self.type_of(a, fn) if t.startswith('K:')} if isinstance(a, (ast.Name, ast.Attribute)) else set()
            if not kt:
                return tags      # foreign class: no narrowing
            for k in kt:
                ci = self.index.classes.get(k[2:])
                if ci is None:
                    return tags
                keep = set()
                for t in tags:
                    if t.startswith('C:'):
                        ti = self.index.classes.get(t[2:])
                        if ti is None:
                            continue
                        if ci in ti.mro:
                            keep.add(t)
                        elif ti in ci.mro:
                            keep.add('C:' + ci.qualname)
                out |= keep or {'C:' + ci.qualname}
        return out or tags

    def _is_builtin_name(self, fn, name):
        return self.lookup_name(fn, name) <= {'ext', '?', 'F:utils.iteritems'}

    def call_type(self, call, fn):
        f = call.func
        if isinstance(f, ast.Name) and self._is_builtin_name(fn, f.id):
            if f.id in LIST_RET:
                return {'list'}
            if f.id in ('str', 'repr', 'format', 'chr'):
                return {'str'}
            if f.id in ('int', 'len', 'float', 'abs', 'ord'):
                return {'int'}
            if f.id in ('bool', 'isinstance', 'hasattr', 'issubclass', 'any', 'all', 'callable'):
                return {'bool'}
            if f.id == 'dict':
                return {'dict'}
            if f.id in ('set', 'frozenset'):
                return {'set'}
            if f.id == 'tuple':
                return {'tuple'}
            if f.id == 'getattr' and len(call.args) >= 2:
                return self.getattr_type(call, fn)
        if isinstance(f, ast.Attribute):
            rt = self.type_of(f.value, fn)
            hl7 = any(t.startswith('C:') or t.startswith('M:') or t.startswith('K:') for t in rt)
            if f.attr == 'import_module':
                from .versions import _import_module_target
                t = _import_module_target(call)
                return {'M:' + t} if t else {'M:lib'}
            if not hl7:
                if f.attr in STR_TO_LIST and (rt & {'str', '?'}):
                    return {'list'}
                if f.attr in STR_METHODS and (rt & {'str', '?'}) and not (rt & CONTAINER_TAGS):
                    return {'bool'} if f.attr in ('startswith', 'endswith', 'isdigit') else \
                        ({'int'} if f.attr in ('find', 'count') else {'str'})
                if f.attr == 'copy' and rt & CONTAINER_TAGS:
                    return rt & CONTAINER_TAGS
                if f.attr in ('get', 'pop', 'setdefault') and (rt & {'dict', 'list'}):
                    sub = self.const_sub(call.args[0]) if call.args else None
                    out = self.contents_of(f.value, fn, sub)
                    for a in call.args[1:]:
                        out |= self.type_of(a, fn)
                    if f.attr == 'get' and len(call.args) < 2:
                        out.add('none')
                    return out or {'?'}
                if f.attr in ('values', 'keys', 'items') and 'dict' in rt:
                    return {'list'}
                if f.attr == 'index' and rt & {'list', 'tuple', 'str'}:
                    return {'int'}
        out = set()
        for t in self.resolve_call(call, fn):
            out |= self._target_ret(t)
        return out or {'?'}

    def _target_ret(self, t):
        if t.ctor is not None:
            return {'C:' + t.ctor.qualname}
        if t.kind == 'func':
            return set(self.ret.get(t.func.qualname, set())) or {'?'}
        if t.kind in ('builtin', 'ext'):
            return {'ext'}
        return {'?'}

    def getattr_type(self, call, fn):
        obj, name = call.args[0], call.args[1]
        ot = self.type_of(obj, fn)
        out = set()
        names = self.const_strings(name, fn)
        for tag in ot:
            if tag.startswith('M:') and names:
                m = self.index.modules.get(tag[2:])
                for n in names:
                    if m is not None:
                        out |= self.lookup_module_name(m, n)
            elif tag.startswith('C:'):
                ci = self.index.classes.get(tag[2:])
                if names:
                    for n in names:
                        fake = ast.Attribute(value=obj, attr=n, ctx=ast.Load())
                        out |= self.attr_type(fake, fn)
                elif ci is not None:
                    for s in self.subs(ci):
                        ga = s.find_method('__getattr__')
                        if ga is not None:
                            out |= self.ret.get(ga.qualname, set())
                    out.add('?')
        for a in call.args[2:]:
            out |= self.type_of(a, fn)
        return out or {'?'}

    def const_strings(self, expr, fn):
        """possible constant string values of an expression, or None when unknown"""
        if isinstance(expr, ast.Constant) and isinstance(expr.value, str):
            return {expr.value}
        # self.child_parser[i]  -> class constants of the concrete subclasses of self's class
        if isinstance(expr, ast.Subscript) and isinstance(expr.value, ast.Attribute) and \
                isinstance(expr.slice, ast.Constant) and isinstance(expr.slice.value, int):
            out = set()
            for tag in self.type_of(expr.value.value, fn):
                if tag.startswith('C:'):
                    ci = self.index.classes.get(tag[2:])
                    for s in self.subs(ci):
                        val = s.find_attr(expr.value.attr)
                        if isinstance(val, (ast.Tuple, ast.List)) and len(val.elts) > expr.slice.value:
                            el = val.elts[expr.slice.value]
                            if isinstance(el, ast.Constant) and isinstance(el.value, str):
                                out.add(el.value)
            return out or None
        return None

    # ------------------------------------------------------------------ dynamic setattr
    def returned_dict_items(self, fi):
        """{constant key: [value exprs]} of the dict a function builds and returns"""
        names = set()
        for n in own_nodes(fi.node):
            if isinstance(n, ast.Return) and isinstance(n.value, ast.Name):
                names.add(n.value.id)
        items = {}
        for n in own_nodes(fi.node):
            if isinstance(n, ast.Assign):
                for t in n.targets:
                    if isinstance(t, ast.Name) and t.id in names and isinstance(n.value, ast.Dict):
                        for k, v in zip(n.value.keys, n.value.values):
                            if isinstance(k, ast.Constant):
                                items.setdefault(k.value, []).append(v)
                    if isinstance(t, ast.Subscript) and isinstance(t.value, ast.Name) and t.value.id in names \
                            and isinstance(t.slice, ast.Constant):
                        items.setdefault(t.slice.value, []).append(n.value)
        return items

    def dynamic_setattr_names(self, call, fn):
        """setattr(obj, k, v) where (k, v) iterate over the items of a dict returned by a function that builds
        it with constant keys -> {key: [types, [(value expr, producer fn)]]}; None when not recognised"""
        if not (len(call.args) == 3 and isinstance(call.args[1], ast.Name)):
            return None
        kname = call.args[1].id
        loop = None
        p = getattr(call, '_parent', None)
        while p is not None and not isinstance(p, (ast.FunctionDef, ast.AsyncFunctionDef)):
            if isinstance(p, ast.For) and isinstance(p.target, ast.Tuple) and len(p.target.elts) == 2 and \
                    isinstance(p.target.elts[0], ast.Name) and p.target.elts[0].id == kname:
                loop = p
                break
            p = getattr(p, '_parent', None)
        if loop is None:
            return None
        it = loop.iter
        src = None
        if isinstance(it, ast.Call) and isinstance(it.func, ast.Name) and it.func.id == 'iteritems' and it.args:
            src = it.args[0]
        elif isinstance(it, ast.Call) and isinstance(it.func, ast.Attribute) and it.func.attr == 'items':
            src = it.func.value
        if not isinstance(src, ast.Name):
            return None
        out = {}
        found = False
        for n in own_nodes(fn.node):
            if isinstance(n, ast.Assign) and any(isinstance(t, ast.Name) and t.id == src.id for t in n.targets) \
                    and isinstance(n.value, ast.Call):
                for t in self.resolve_call(n.value, fn):
                    if t.kind != 'func':
                        continue
                    producers = [t.func]
                    for r in own_nodes(t.func.node):   # follow one level of `return other(...)`
                        if isinstance(r, ast.Return) and isinstance(r.value, ast.Call):
                            for t2 in self.resolve_call(r.value, t.func):
                                if t2.kind == 'func':
                                    producers.append(t2.func)
                    for prod in producers:
                        for k, vals in self.returned_dict_items(prod).items():
                            found = True
                            ts = out.setdefault(k, [set(), []])
                            for v in vals:
                                ts[0] |= self.type_of(v, prod)
                                ts[1].append((v, prod))
        p = getattr(call, '_parent', None)
        while p is not None and p is not loop:   # names excluded by an enclosing `if k != 'const'`
            if isinstance(p, ast.If) and isinstance(p.test, ast.Compare) and len(p.test.ops) == 1 and \
                    isinstance(p.test.ops[0], ast.NotEq) and isinstance(p.test.left, ast.Name) and \
                    p.test.left.id == kname and isinstance(p.test.comparators[0], ast.Constant):
                out.pop(p.test.comparators[0].value, None)
            p = getattr(p, '_parent', None)
        return out if found else None

    # ------------------------------------------------------------------ call resolution
    def resolve_call(self, call, fn):
        key = id(call)
        c = self._rcache.get(key)
        if c is not None and c[0] == self._epoch:
            return c[1]
        res = self._resolve_call(call, fn)
        self._rcache[key] = (self._epoch, res)
        return res

    def _resolve_call(self, call, fn):
        f = call.func
        out = []
        if isinstance(f, ast.Name):
            tags = self.lookup_name(fn, f.id)
            self._targets_from_tags(tags, out, f.id)
            if not out:
                if f.id in BUILTIN_FUNCS:
                    out.append(Target('builtin', name=f.id))
                else:
                    out.append(Target('unknown', name=f.id))
            return out
        if isinstance(f, ast.Attribute):
            recv = f.value
            m = f.attr
            if isinstance(recv, ast.Call) and isinstance(recv.func, ast.Name) and recv.func.id == 'super':
                return self._resolve_super(recv, m, fn)
            rt = self.type_of(recv, fn)
            hit = False
            plain = set()
            for tag in sorted(rt):
                if tag.startswith('C:'):
                    ci = self.index.classes.get(tag[2:])
                    if ci is None:
                        continue
                    got = set()
                    for s in self.subs(ci):
                        meth = s.find_method(m)
                        if meth is not None and meth.qualname not in got:
                            got.add(meth.qualname)
                            out.append(Target('func', meth, m, bound=not meth.is_static, via='cha'))
                            hit = True
                    if not got:
                        if any(c.external_bases and c.external_bases != ['object'] for c in ci.mro):
                            out.append(Target('ext', name='%s.%s' % (ci.name, m)))
                            hit = True
                        else:
                            fake = ast.Attribute(value=recv, attr=m, ctx=ast.Load())
                            n0 = len(out)
                            self._targets_from_tags(self.attr_type(fake, fn) - {'ext'}, out, m)
                            hit = hit or len(out) > n0
                elif tag.startswith('K:'):
                    ci = self.index.classes.get(tag[2:])
                    meth = ci.find_method(m) if ci else None
                    if meth is not None:
                        out.append(Target('func', meth, m, bound=False, via='explicit'))
                    else:
                        out.append(Target('ext', name='%s.%s' % (tag[2:], m)))
                    hit = True
                elif tag.startswith('M:'):
                    mods = self.index.versions if tag == 'M:lib' else [tag[2:]]
                    for mn in mods:
                        mod = self.index.modules.get(mn)
                        if mod is None:
                            out.append(Target('ext', name='%s.%s' % (mn, m)))
                        else:
                            n0 = len(out)
                            self._targets_from_tags(self.lookup_module_name(mod, m), out, m)
                            if len(out) == n0:
                                out.append(Target('ext', name='%s.%s' % (mn, m)))
                        hit = True
                elif tag in PLAIN:
                    plain.add(tag)
                    hit = True
            if plain:
                out.append(Target('builtin', name='%s.%s' % ('|'.join(sorted(plain)), m)))
            if not hit or '?' in rt:
                fam = []
                for qn in sorted(self.index.classes):
                    ci = self.index.classes[qn]
                    if m in ci.methods and not ci.methods[m].is_property:
                        fam.append(ci.methods[m])
                known = {t.func.qualname for t in out if t.func}
                if (m in MUTATORS or m in STR_METHODS or m in READ_METHODS) and not plain:
                    out.append(Target('builtin', name='?.%s' % m, via='fallback'))
                for meth in fam:
                    if meth.qualname not in known:
                        out.append(Target('func', meth, m, bound=not meth.is_static, via='fallback'))
                if not out:
                    out.append(Target('unknown', name=m))
            seen, res = set(), []
            for t in out:
                k = (t.kind, t.func.qualname if t.func else t.name, t.bound, t.ctor.qualname if t.ctor else None)
                if k not in seen:
                    seen.add(k)
                    res.append(t)
            return res
        tags = self.type_of(f, fn)
        self._targets_from_tags(tags, out, norm(f)[:40])
        if not out:
            out.append(Target('unknown', name=norm(f)[:40]))
        return out

    def _targets_from_tags(self, tags, out, name):
        for tag in sorted(tags):
            if tag.startswith('F:'):
                fi = self.index.functions.get(tag[2:])
                if fi is not None:
                    out.append(Target('func', fi, name, bound=False, via='name'))
            elif tag.startswith('K:'):
                ci = self.index.classes.get(tag[2:])
                if ci is None:
                    continue
                init = ci.find_method('__init__')
                if init is not None:
                    out.append(Target('func', init, name, bound=True, ctor=ci, via='ctor'))
                else:
                    out.append(Target('ext', name=ci.qualname, ctor=ci))
            elif tag == 'ext':
                out.append(Target('ext', name=name))

    def _resolve_super(self, recv, m, fn):
        out = []
        k = self.self_class(fn)
        if k is None:
            return [Target('unknown', name='super.' + m)]
        f = fn
        while f.cls is None:
            f = f.outer
        if recv.args and isinstance(recv.args[0], ast.Name):
            k2 = self.index.resolve_class_name(f.module, recv.args[0].id)
            if k2 is not None:
                k = k2
        got = set()
        for s in self.subs(k):
            mro = s.mro
            i = mro.index(k)
            nxt = None
            for c in mro[i + 1:]:
                if m in c.methods:
                    nxt = c.methods[m]
                    break
            if nxt is not None:
                if nxt.qualname not in got:
                    got.add(nxt.qualname)
                    out.append(Target('func', nxt, m, bound=True, via='super'))
            else:
                ext = sorted({b for c in mro[i + 1:] for b in c.external_bases})
                key = ('ext', tuple(ext))
                if key not in got:
                    got.add(key)
                    out.append(Target('ext' if ext and ext != ['object'] else 'builtin',
                                      name='super(%s).%s' % (k.name, m), via='super:' + ','.join(ext)))
        return out or [Target('unknown', name='super.' + m)]

    # ------------------------------------------------------------------ binding arguments
    def bind(self, call, target):
        """-> (dict param -> arg expr, extra positional exprs, [*args exprs], [**kwargs exprs])"""
        fi = target.func
        params = list(fi.params)
        if target.bound and fi.cls is not None and not fi.is_static and params:
            params = params[1:]
        b = {}
        extra, stars, kwstars = [], [], []
        i = 0
        for a in call.args:
            if isinstance(a, ast.Starred):
                stars.append(a.value)
                continue
            if i < len(params):
                b[params[i]] = a
            else:
                extra.append(a)
            i += 1
        for kw in call.keywords:
            if kw.arg is None:
                kwstars.append(kw.value)
            else:
                b[kw.arg] = kw.value
        return b, extra, stars, kwstars

    def kwargs_keys(self, expr, fn):
        """constant keys a **expr dict may carry -> {key: tags}; '*' entry = unknown keys"""
        out = {}
        for k in self.ckeys(expr, fn):
            for sub, tags in self.contents.get(k, {}).items():
                out.setdefault(sub, set()).update(tags)
        return out

    # ------------------------------------------------------------------ solving
    def _solve(self):
        # phase 1: propagate along precisely resolved calls only; phase 2: add the name-based fallback edges
        # for receivers that are still unknown (facts are monotone, so early guesses would never be retracted)
        self.rounds = 0
        for phase in (1, 2):
            self.allow_fallback = phase == 2
            for rnd in range(self.MAX_ROUNDS):
                self.changed = False
                self._epoch += 1
                for f in self.funcs:
                    self._visit_function(f)
                self._visit_module_level()
                self.rounds += 1
                if not self.changed:
                    break
        self._epoch += 1

    def _visit_module_level(self):
        for mod in self.index.modules.values():
            self._cur_mod = mod
            for name, val in mod.assigns.items():
                self._add(self.modvar, (mod.name, name), self.type_of(val, None) - {'?'})
                self._literal(('mod', mod.name, name), val, None)
            for ci in mod.classes.values():
                for name, val in ci.attrs.items():
                    self._literal(('clsattr', ci.qualname, name), val, None)
        self._cur_mod = None

    def _literal(self, key, val, fn):
        """record the contents of a container literal under `key`"""
        if isinstance(val, ast.Dict):
            for k, v in zip(val.keys, val.values):
                if v is None:
                    continue
                sub = self.const_sub(k) if k is not None else None
                self._store(key, sub if sub is not None else '*', v, fn)
        elif isinstance(val, (ast.List, ast.Tuple)):
            for i, v in enumerate(val.elts):
                self._store(key, i if isinstance(val, ast.Tuple) else '*', v, fn)
        elif isinstance(val, ast.Set):
            for v in val.elts:
                self._store(key, '*', v, fn)
        elif isinstance(val, (ast.ListComp, ast.GeneratorExp, ast.SetComp)):
            self._store(key, '*', val.elt, fn)
        elif isinstance(val, ast.DictComp):
            self._store(key, '*', val.value, fn)
        elif isinstance(val, ast.BinOp) and isinstance(val.op, ast.Add):
            self._literal(key, val.left, fn)
            self._literal(key, val.right, fn)
        elif isinstance(val, ast.IfExp):
            self._literal(key, val.body, fn)
            self._literal(key, val.orelse, fn)

    def _store(self, key, sub, v, fn):
        """container[key][sub] <- v  (nested containers flatten into the same key)"""
        self.c_add(key, sub, self.type_of(v, fn) - {'?'})
        if isinstance(v, (ast.Dict, ast.List, ast.Tuple, ast.Set, ast.ListComp, ast.GeneratorExp, ast.DictComp)):
            self._literal(key, v, fn)
        else:
            vt = self.type_of(v, fn)
            if vt & CONTAINER_TAGS or '?' in vt:
                for k2 in self.ckeys(v, fn):
                    self.c_merge(key, k2)

    def _alias(self, key, value_expr, fn):
        """key now names (an alias / copy / element of) the container value_expr"""
        self._literal(key, value_expr, fn)
        if split_call(value_expr):
            self.c_add(key, '*', {'str'})
        vt = self.type_of(value_expr, fn)
        if vt & CONTAINER_TAGS or '?' in vt:
            for k2 in self.ckeys(value_expr, fn):
                self.c_merge(key, k2)

    def _attr_store(self, target, value_types, value_expr, fn):
        rt = self.type_of(target.value, fn)
        roots = self.attr_roots(rt, target.attr)
        known = {t for t in rt if t.startswith('C:')}
        setters = []
        if known:
            for tag in known:
                ci = self.index.classes.get(tag[2:])
                for s in self.subs(ci):
                    p = s.find_property(target.attr)
                    if p is not None and p[1] is not None and p[1] not in setters:
                        setters.append(p[1])
        else:
            setters = list(self.property_setters(target.attr))
        for st in setters:
            if len(st.params) >= 2:
                self._add(self.var, (st.qualname, st.params[1]), value_types - {'?'})
                if value_expr is not None:
                    self._alias(('var', st.qualname, st.params[1]), value_expr, fn)
        if not setters:
            for r in roots:
                self._add(self.iattr, (r, target.attr), value_types - {'?'})
                if value_expr is not None:
                    self._alias(('attr', r, target.attr), value_expr, fn)

    def _assign(self, target, value_types, value_expr, fn):
        fq = fn.qualname
        if isinstance(target, ast.Name):
            self.var.setdefault((fq, target.id), set())
            self._add(self.var, (fq, target.id), value_types - {'?'})
            if value_expr is not None:
                self._alias(('var', fq, target.id), value_expr, fn)
        elif isinstance(target, ast.Attribute):
            self._attr_store(target, value_types, value_expr, fn)
        elif isinstance(target, ast.Subscript):
            sub = self.const_sub(target.slice)
            for key in self.ckeys(target.value, fn):
                self.c_add(key, sub if sub is not None else '*', value_types - {'?'})
                if value_expr is not None:
                    self._alias(key, value_expr, fn)
        elif isinstance(target, (ast.Tuple, ast.List)):
            if isinstance(value_expr, (ast.Tuple, ast.List)) and len(value_expr.elts) == len(target.elts):
                for t, v in zip(target.elts, value_expr.elts):
                    self._assign(t, self.type_of(v, fn), v, fn)
                return
            if isinstance(value_expr, ast.Call):
                tfs = [t.func.qualname for t in self.resolve_call(value_expr, fn) if t.kind == 'func' and not t.ctor]
                if tfs and all((q, i) in self.ret_items for q in tfs for i in range(len(target.elts))):
                    for i, t in enumerate(target.elts):
                        ts = set()
                        for q in tfs:
                            ts |= self.ret_items[(q, i)]
                        self._assign(t, ts, None, fn)
                        if isinstance(t, ast.Name):
                            for q in tfs:
                                self.c_merge(('var', fq, t.id), ('retitem', q, i))
                    return
            for i, t in enumerate(target.elts):
                c = set()
                if value_expr is not None:
                    c = self.contents_of(value_expr, fn, i)
                    if 'str' in value_types and not (value_types & CONTAINER_TAGS):
                        c = c | {'str'}
                self._assign(t, c, None, fn)
                if isinstance(t, ast.Name) and value_expr is not None:
                    for k2 in self.ckeys(value_expr, fn):
                        self.c_merge_element(('var', fq, t.id), k2)

    def _bind_loop(self, target, it, fn):
        fq = fn.qualname
        itt = self.type_of(it, fn)
        c = self.contents_of(it, fn)
        if 'str' in itt or split_call(it):
            c = c | {'str'}
        for tag in itt:   # iterating an hl7apy sequence yields what its __getitem__ returns
            if tag.startswith('C:'):
                ci = self.index.classes.get(tag[2:])
                gi = ci.find_method('__getitem__') if ci else None
                if gi is not None:
                    c |= self.ret.get(gi.qualname, set())
        if isinstance(it, ast.Call) and isinstance(it.func, ast.Name) and it.func.id == 'enumerate' \
                and isinstance(target, ast.Tuple) and len(target.elts) == 2 and it.args:
            self._assign(target.elts[0], {'int'}, None, fn)
            self._bind_loop(target.elts[1], it.args[0], fn)
            return
        dict_items = isinstance(it, ast.Call) and (
            (isinstance(it.func, ast.Name) and it.func.id == 'iteritems') or
            (isinstance(it.func, ast.Attribute) and it.func.attr == 'items'))
        if isinstance(target, (ast.Tuple, ast.List)):
            for i, t in enumerate(target.elts):
                if dict_items and i == 0:
                    self._assign(t, {'str'}, None, fn)
                    continue
                self._assign(t, c, None, fn)
                if isinstance(t, ast.Name):
                    for k2 in self.ckeys(it, fn):
                        self.c_merge_element(('var', fq, t.id), k2)
        else:
            self._assign(target, c, None, fn)
            if isinstance(target, ast.Name):
                for k2 in self.ckeys(it, fn):
                    self.c_merge_element(('var', fq, target.id), k2)

    def _visit_function(self, fn):
        fq = fn.qualname
        self.ret.setdefault(fq, set())
        for p in fn.params + fn.kwonly:
            self.var.setdefault((fq, p), set())
            d = fn.defaults.get(p)
            if d is not None:
                self._add(self.var, (fq, p), self.type_of(d, fn) - {'?'})
        if fn.vararg:
            self._add(self.var, (fq, fn.vararg), {'tuple'})
        if fn.kwarg:
            self._add(self.var, (fq, fn.kwarg), {'dict'})
        if fn.cls is not None and not fn.is_static and fn.params:
            self._add(self.var, (fq, fn.params[0]), {'C:' + fn.cls.qualname})
        returns_value = False
        for n in own_nodes(fn.node):
            if isinstance(n, ast.Assign):
                vt = self.type_of(n.value, fn)
                for t in n.targets:
                    self._assign(t, vt, n.value, fn)
            elif isinstance(n, ast.AugAssign):
                self._assign(n.target, self.type_of(n.value, fn) | self.type_of(n.target, fn), n.value, fn)
            elif isinstance(n, ast.AnnAssign) and n.value is not None:
                self._assign(n.target, self.type_of(n.value, fn), n.value, fn)
            elif isinstance(n, (ast.For, ast.comprehension)):
                self._bind_loop(n.target, n.iter, fn)
            elif isinstance(n, ast.With):
                for item in n.items:
                    if item.optional_vars is not None:
                        self._assign(item.optional_vars, {'ext'}, None, fn)
            elif isinstance(n, ast.ExceptHandler):
                if n.name:
                    self._add(self.var, (fq, n.name), {'ext'})
            elif isinstance(n, ast.Return):
                if n.value is not None:
                    returns_value = True
                    self._add(self.ret, fq, self.type_of(n.value, fn) - {'?'})
                    if isinstance(n.value, ast.Tuple):
                        for i, el in enumerate(n.value.elts):
                            self.ret_items.setdefault((fq, i), set())
                            self._add(self.ret_items, (fq, i), self.type_of(el, fn) - {'?'})
                            self._alias(('retitem', fq, i), el, fn)
                    else:
                        self._alias(('ret', fq), n.value, fn)
                else:
                    self._add(self.ret, fq, {'none'})
            elif isinstance(n, (ast.Yield, ast.YieldFrom)):
                self._add(self.ret, fq, {'list'})
            elif isinstance(n, ast.Call):
                self._visit_call(n, fn)
        if not returns_value:
            self._add(self.ret, fq, {'none'})

    def _visit_call(self, call, fn):
        f = call.func
        if isinstance(f, ast.Attribute) and f.attr in ('append', 'insert', 'extend', 'update', 'add', 'setdefault') \
                and call.args:
            rt = self.type_of(f.value, fn)
            if not any(t.startswith('C:') or t.startswith('M:') or t.startswith('K:') for t in rt):
                v = call.args[-1]
                for key in self.ckeys(f.value, fn):
                    if f.attr in ('extend', 'update'):
                        self._alias(key, v, fn)
                    elif f.attr == 'setdefault' and len(call.args) == 2:
                        sub = self.const_sub(call.args[0])
                        self._store(key, sub if sub is not None else '*', v, fn)
                    else:
                        self._store(key, '*', v, fn)
        if isinstance(f, ast.Name) and f.id == 'setattr' and len(call.args) == 3 and self._is_builtin_name(fn, 'setattr'):
            names = self.const_strings(call.args[1], fn)
            if names:
                for n in names:
                    fake = ast.Attribute(value=call.args[0], attr=n, ctx=ast.Store())
                    self._attr_store(fake, self.type_of(call.args[2], fn), call.args[2], fn)
            else:
                dyn = self.dynamic_setattr_names(call, fn)
                if dyn:
                    rt = self.type_of(call.args[0], fn)
                    for n, (ts, exprs) in dyn.items():
                        fake = ast.Attribute(value=call.args[0], attr=n, ctx=ast.Store())
                        self._attr_store(fake, ts, None, fn)
                        if not self.property_setters(n):
                            for v, prod in exprs:
                                for r in self.attr_roots(rt, n):
                                    self._alias(('attr', r, n), v, prod)
        for t in self.resolve_call(call, fn):
            if t.kind != 'func':
                continue
            if t.via == 'fallback' and not self.allow_fallback:
                continue
            fi = t.func
            tq = fi.qualname
            b, extra, stars, kwstars = self.bind(call, t)
            names = set(fi.params) | set(fi.kwonly)
            for p, a in b.items():
                if p in names:
                    self._add(self.var, (tq, p), self.type_of(a, fn) - {'?'})
                    self._alias(('var', tq, p), a, fn)
                elif fi.kwarg:
                    self._store(('var', tq, fi.kwarg), p, a, fn)
            if extra and fi.vararg:
                for a in extra:
                    self._store(('var', tq, fi.vararg), '*', a, fn)
            for sx in stars:
                c = self.contents_of(sx, fn)
                params = fi.call_params() if t.bound else fi.params
                for p in params:
                    self._add(self.var, (tq, p), c)
                if fi.vararg:
                    self.c_add(('var', tq, fi.vararg), '*', c)
            for kx in kwstars:
                for sub, tags in self.kwargs_keys(kx, fn).items():
                    if sub == '*' or not isinstance(sub, str):
                        continue
                    if sub in names:
                        self._add(self.var, (tq, sub), tags)
                    elif fi.kwarg:
                        self.c_add(('var', tq, fi.kwarg), sub, tags)
                if fi.kwarg:
                    for k2 in self.ckeys(kx, fn):
                        self.c_merge(('var', tq, fi.kwarg), k2)
