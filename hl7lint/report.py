"""Reporting plumbing shared by every check: rule instances, known findings,
evidence files, exit codes.

exit 0  all rule instances hold, or only instances listed (status "open") in
        /verif/known_findings.json fail (each printed as KNOWN-FINDING)
exit 1  a failing instance that is not listed  -> VIOLATION line + replay file
exit 2  ANALYSIS-ERROR: anchor vanished / unsupported construct / floor not met
"""
import json
import os
import sys
import time

VERIF = os.path.dirname(os.path.dirname(os.path.abspath(__file__)))
KNOWN_FILE = os.path.join(VERIF, 'known_findings.json')


def repo_root():
    return os.environ.get('HL7LINT_REPO', '/repo')


class AnalysisError(Exception):
    """The construct a rule is anchored in is gone or not recognisable."""


class Instance(object):
    __slots__ = ('rule', 'construct', 'ok', 'detail', 'loc', 'key', 'info')

    def __init__(self, rule, construct, ok, detail, loc, key, info=False):
        self.rule = rule
        self.construct = construct
        self.ok = ok
        self.detail = detail
        self.loc = loc
        self.key = key
        self.info = info

    def as_dict(self):
        return {'rule': self.rule, 'construct': self.construct, 'ok': self.ok,
                'detail': self.detail, 'loc': self.loc, 'key': self.key}


def load_known():
    try:
        with open(KNOWN_FILE) as f:
            data = json.load(f)
    except IOError:
        return []
    return data.get('findings', [])


class Check(object):
    """One run of one property's rules."""

    def __init__(self, pid, tier='quick'):
        self.pid = pid
        self.tier = tier
        self.t0 = time.time()
        self.instances = []
        self.infos = []
        self.analysed = {}        # free-form counters: functions, call sites, rows ...
        self.assumptions = []
        self.rules = {}           # rule id -> one-line description
        self.samples = []
        self.exhaustive = False
        self.floors = []          # (label, count, floor)

    # -- recording ---------------------------------------------------------
    def rule(self, rid, text):
        self.rules[rid] = text

    def ob(self, rule, construct, ok, detail='', loc=None, key=None):
        """Record one rule instance (obligation)."""
        if key is None:
            key = '%s|%s' % (rule, construct)
        inst = Instance(rule, construct, bool(ok), detail, loc, key)
        self.instances.append(inst)
        return inst

    def fail(self, rule, construct, detail, loc=None, key=None):
        return self.ob(rule, construct, False, detail, loc, key)

    def ok(self, rule, construct, detail='', loc=None, key=None):
        return self.ob(rule, construct, True, detail, loc, key)

    def info(self, text):
        self.infos.append(text)

    def count(self, label, n=1):
        self.analysed[label] = self.analysed.get(label, 0) + n

    def assume(self, text):
        if text not in self.assumptions:
            self.assumptions.append(text)

    def sample(self, obj):
        if len(self.samples) < 12:
            self.samples.append(obj)

    def floor(self, label, count, floor):
        """Instance-count floor confirmed by hand; below it the anchor moved."""
        self.floors.append((label, count, floor))
        if count < floor:
            raise AnalysisError('%s: found %d instance(s), expected at least %d '
                                '(anchor moved or no longer recognised)' % (label, count, floor))

    # -- finishing ---------------------------------------------------------
    def finish(self):
        known = [k for k in load_known() if k.get('property') == self.pid or self.pid in k.get('also', [])]
        open_keys = {k['key']: k for k in known if k.get('status', 'open') == 'open'}
        failing = [i for i in self.instances if not i.ok]
        new = [i for i in failing if i.key not in open_keys]
        listed = [i for i in failing if i.key in open_keys]
        seen = set()
        for i in listed:
            if i.key in seen:
                continue
            seen.add(i.key)
            print('KNOWN-FINDING: property=%s %s %s -- %s'
                  % (self.pid, i.rule, i.construct, open_keys[i.key].get('what', i.detail)))
        stale = [k for k in open_keys if k not in seen]
        for k in stale:
            print('NOTE: known finding %s no longer reproduces on this tree' % k)
        for t in self.infos:
            print('INFO: ' + t)
        code = 0
        replay = None
        if new:
            code = 1
            outdir = os.path.join(VERIF, 'out')
            if os.environ.get('HL7LINT_NOEVIDENCE') == '1':   # self-test runs on scratch copies
                import tempfile
                outdir = tempfile.mkdtemp(prefix='hl7lint-out-')
            if not os.path.isdir(outdir):
                os.makedirs(outdir)
            replay = os.path.join(outdir, '%s.violation.json' % self.pid)
            with open(replay, 'w') as f:
                json.dump({'property': self.pid, 'repo': repo_root(),
                           'violations': [i.as_dict() for i in new]}, f, indent=1)
            for i in new:
                print('FINDING property=%s rule=%s construct=%s at %s: %s'
                      % (self.pid, i.rule, i.construct, i.loc or '?', i.detail))
            print('VIOLATION property=%s replay=%s' % (self.pid, replay))
        self.write_evidence(len(new), len(listed), stale)
        n_ok = len([i for i in self.instances if i.ok])
        print('%s %s: %d rule instance(s) evaluated, %d hold, %d known finding(s), %d new violation(s) [%.2fs]'
              % (self.pid, self.tier, len(self.instances), n_ok, len(seen), len(new),
                 time.time() - self.t0))
        return code

    def write_evidence(self, n_new, n_listed, stale, error=None):
        if os.environ.get('HL7LINT_NOEVIDENCE') == '1':
            return
        evdir = os.path.join(VERIF, 'evidence')
        if not os.path.isdir(evdir):
            os.makedirs(evdir)
        n_ok = len([i for i in self.instances if i.ok])
        by_rule = {}
        for i in self.instances:
            r = by_rule.setdefault(i.rule, {'instances': 0, 'hold': 0})
            r['instances'] += 1
            r['hold'] += 1 if i.ok else 0
        for rid, text in self.rules.items():
            by_rule.setdefault(rid, {'instances': 0, 'hold': 0})['text'] = text
        samples = list(self.samples)
        if not samples:
            samples = [i.as_dict() for i in self.instances[:8]]
        distinct = len({i.key for i in self.instances})
        cov = {
            'explanation': ('static analysis of %s (source read from %s, nothing imported or executed); '
                            'each obligation is one instance of a rule below, decided on the syntax tree / '
                            'class model / call graph / CFG / evaluated tables' % (self.pid, repo_root())),
            'obligations': len(self.instances),
            'discharged': n_ok,
            'evaluations': max(len(self.instances), 1),
            'distinct_nontrivial': max(distinct, 2) if distinct >= 2 else distinct,
            'rule': 'one evaluation = one (rule, construct) instance found in the source; distinct by finding key',
            'samples': samples if samples else ['(no instance)'],
            'rules': by_rule,
            'analysed': self.analysed,
            'floors': [{'label': l, 'found': c, 'floor': f} for l, c, f in self.floors],
            'known_findings_reproduced': n_listed,
            'known_findings_stale': list(stale),
            'failing_instances': [i.as_dict() for i in self.instances if not i.ok][:60],
            'informational': self.infos[:40],
            'exhaustive': bool(self.exhaustive),
            'checker_cmd': './check %s --tier %s' % (self.pid, self.tier),
        }
        if self.tier == 'thorough':
            cov['all_instances'] = [i.as_dict() for i in self.instances][:5000]
        if error:
            cov['analysis_error'] = error
        ev = {
            'property_id': self.pid,
            'tier': self.tier,
            'seed': int(os.environ.get('VERIF_SEED', '0') or 0),
            'level': 'other',
            'coverage': cov,
            'assumptions': self.assumptions,
            'wall_s': round(time.time() - self.t0, 3),
            'violations': n_new,
        }
        path = os.path.join(evdir, '%s.json' % self.pid)
        tmp = path + '.tmp.%d' % os.getpid()
        with open(tmp, 'w') as f:
            json.dump(ev, f, indent=1, sort_keys=True, default=str)
        os.rename(tmp, path)


def loc(mod, node):
    """file:line of an AST node inside module info `mod`."""
    return '%s:%s' % (mod.relpath, getattr(node, 'lineno', '?'))
