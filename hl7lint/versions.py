"""Per-version BASE_DATATYPES: key -> ClassInfo, read from hl7apy/v2_*/__init__.py
(tuple literal in _load_base_datatypes + dts.update({...}) + BASE_DATATYPES.update({...}))."""
import ast

from .report import AnalysisError


def _import_module_target(call):
    """importlib.import_module("hl7apy.x") -> 'x' (hl7apy-relative) or None"""
    if isinstance(call, ast.Call) and ast.unparse(call.func) in ('importlib.import_module', 'import_module') \
            and call.args and isinstance(call.args[0], ast.Constant):
        s = call.args[0].value
        if s == 'hl7apy':
            return '__init__'
        if s.startswith('hl7apy.'):
            return s[len('hl7apy.'):]
    return None


def base_datatypes(index, v):
    """-> {key: ClassInfo} for version package v ('v2_5')."""
    mod = index.module(v)
    loader = mod.functions.get('_load_base_datatypes')
    if loader is None:
        raise AnalysisError('%s: _load_base_datatypes not found' % mod.relpath)
    names = None
    src_mod = None
    res = {}
    local_dict = None
    for node in ast.walk(loader.node):
        if isinstance(node, ast.Assign) and len(node.targets) == 1 and isinstance(node.targets[0], ast.Name):
            if isinstance(node.value, ast.Tuple) and all(isinstance(e, ast.Constant) and isinstance(e.value, str)
                                                         for e in node.value.elts):
                names = [e.value for e in node.value.elts]
            t = _import_module_target(node.value)
            if t:
                src_mod = t
            if isinstance(node.value, ast.Dict) and not node.value.keys:
                local_dict = node.targets[0].id
    if names is None or src_mod is None:
        raise AnalysisError('%s: _load_base_datatypes has an unrecognised shape' % mod.relpath)
    m = index.module(src_mod)
    for n in names:
        ci = m.classes.get(n)
        if ci is None:
            raise AnalysisError('%s: base datatype %s not defined in %s' % (mod.relpath, n, m.relpath))
        res[n] = ci

    def apply_update(call):
        if not (call.args and isinstance(call.args[0], ast.Dict)):
            raise AnalysisError('%s:%d: unrecognised BASE_DATATYPES update' % (mod.relpath, call.lineno))
        for k, val in zip(call.args[0].keys, call.args[0].values):
            if not (isinstance(k, ast.Constant) and isinstance(val, ast.Name)):
                raise AnalysisError('%s:%d: unrecognised BASE_DATATYPES update entry' % (mod.relpath, call.lineno))
            ci = index.resolve_class_name(mod, val.id)
            if ci is None:
                raise AnalysisError('%s:%d: cannot resolve class %s' % (mod.relpath, call.lineno, val.id))
            res[k.value] = ci

    def apply_item(st, owner):
        """owner['K'] = Cls   (the canonical form of owner.update({'K': Cls}))"""
        if not (isinstance(st, ast.Assign) and len(st.targets) == 1 and isinstance(st.targets[0], ast.Subscript) and
                isinstance(st.targets[0].value, ast.Name) and st.targets[0].value.id == owner):
            return False
        k, val = st.targets[0].slice, st.value
        if isinstance(k, ast.Attribute) and k.attr == '__name__' and ast.unparse(k.value) == ast.unparse(val):
            return False      # the loader's own loop over the tuple of names: d[cls.__name__] = cls
        if not (isinstance(k, ast.Constant) and isinstance(val, ast.Name)):
            raise AnalysisError('%s:%d: unrecognised BASE_DATATYPES entry' % (mod.relpath, st.lineno))
        ci = index.resolve_class_name(mod, val.id)
        if ci is None:
            raise AnalysisError('%s:%d: cannot resolve class %s' % (mod.relpath, st.lineno, val.id))
        res[k.value] = ci
        return True

    for node in ast.walk(loader.node):
        if isinstance(node, ast.Call) and isinstance(node.func, ast.Attribute) and node.func.attr == 'update' \
                and isinstance(node.func.value, ast.Name) and node.func.value.id == local_dict:
            apply_update(node)
        if local_dict is not None and isinstance(node, ast.Assign):
            apply_item(node, local_dict)
    for st in mod.tree.body:
        if isinstance(st, ast.Expr) and isinstance(st.value, ast.Call):
            c = st.value
            if isinstance(c.func, ast.Attribute) and c.func.attr == 'update' and \
                    isinstance(c.func.value, ast.Name) and c.func.value.id == 'BASE_DATATYPES':
                apply_update(c)
        apply_item(st, 'BASE_DATATYPES')
    bd = mod.assigns.get('BASE_DATATYPES')
    if bd is None or ast.unparse(bd) != '_load_base_datatypes()':
        raise AnalysisError('%s: BASE_DATATYPES is not bound to _load_base_datatypes()' % mod.relpath)
    return res


def all_base_datatypes(index):
    return {v: base_datatypes(index, v) for v in index.versions}
